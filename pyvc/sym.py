"""pyvc.sym -- symbolic value kinds and wrappers (z3 based).

Every Python value that the symbolic executor manipulates is a *wrapper* object
with a *kind*.  Kinds know how to make fresh symbolic values, how to box a
wrapper into a single z3 expression (needed to store it inside a symbolic
container) and how to unbox it again.

Encoding choices (stated in every evidence file as assumed Python semantics):
  * integers are mathematical (z3 Int);
  * `Str` is an UNINTERPRETED sort; string literals are pairwise distinct
    constants; string library functions are uninterpreted functions (`join`,
    `split`, ...) unless a contract opts into the native string theory;
  * `Val` is an uninterpreted sort of opaque Python objects with identity;
  * list  = (len: Int, arr: Array Int -> E), valid indices 0 <= i < len;
  * dict  = (dom: Array K -> Bool, val: Array K -> V)  (insertion order is not
    modelled unless a contract asks for an order witness);
  * mutable containers have reference semantics inside one function (two names
    bound to one wrapper see each other's mutations) and are snapshotted when
    they are stored into a symbolic container ("escape"); mutating a wrapper
    after it escaped is reported as out-of-subset.
"""
import itertools
import z3

Str = z3.DeclareSort('Str')
Val = z3.DeclareSort('Val')
ExcCls = z3.DeclareSort('ExcCls')
IntS = z3.IntSort()
BoolS = z3.BoolSort()


class OutOfSubset(Exception):
  """The real code uses a construct the encoding does not cover."""

  def __init__(self, why, node=None):
    self.why = why
    self.node = node
    line = getattr(node, 'lineno', None)
    super().__init__(f'{why}' + (f' (line {line})' if line else ''))


class PyRaise(Exception):
  """A Python exception raised by the code under analysis (symbolic)."""

  def __init__(self, exc):
    self.exc = exc  # VExc
    super().__init__(repr(exc))


# ----------------------------------------------------------------------------
# literals, axioms registry

_STR_LITS = {}
_AXIOMS = []          # global background axioms (z3 Bool), added to every VC
_AXIOM_NAMES = []


def reset_registry():
  _CONST_CACHE.clear()
  _STR_LITS.clear()
  del _AXIOMS[:]
  del _AXIOM_NAMES[:]
  _AXIOM_KEYS.clear()
  _DECL_CACHE.clear()
  _DT_CACHE.clear()
  _FN_CACHE.clear()
  _EXC_CONSTS.clear()
  if 'val_axioms' in globals():
    val_axioms()          # always registered; selected per VC by relevance


def san(s):
  """A solver-safe identifier for arbitrary text (injective)."""
  return ''.join(c if (c.isalnum() and c.isascii()) or c in '_.!' else
                 '$%02x' % ord(c) for c in s)


def str_lit(s):
  if s not in _STR_LITS:
    _STR_LITS[s] = z3.Const('str!' + san(s), Str)
  return _STR_LITS[s]


_AXIOM_KEYS = {}     # axiom id -> names of the symbols one of which must occur for it to matter


def add_axiom(name, ax, keys=None):
  """Registers a background axiom.  `keys`: it is added to a VC only if one of these symbols
  occurs in the VC (or in an axiom already selected) -- its triggers could not fire otherwise,
  and a VC must not depend on what else happened to be processed in the same run."""
  if name in _AXIOM_NAMES:
    return
  _AXIOM_NAMES.append(name)
  _AXIOMS.append(ax)
  _AXIOM_KEYS[ax.get_id()] = set(keys) if keys else None


_CONST_CACHE = {}


def _uninterpreted_consts(exprs):
  out = {}
  for e in exprs:
    key = e.get_id()
    hit = _CONST_CACHE.get(key)
    if hit is None or not hit[0].eq(e):
      hit = (e, _uninterpreted_consts1([e]))
      _CONST_CACHE[key] = hit
    out.update(hit[1])
  return out


def _uninterpreted_consts1(exprs):
  seen, out = set(), {}
  stack = list(exprs)
  while stack:
    t = stack.pop()
    i = t.get_id()
    if i in seen:
      continue
    seen.add(i)
    if z3.is_quantifier(t):
      stack.append(t.body())
      for k in range(t.num_patterns()):
        stack.extend(t.pattern(k).children())
      continue
    if z3.is_app(t):
      if t.num_args() == 0 and t.decl().kind() == z3.Z3_OP_UNINTERPRETED:
        out[t.decl().name()] = t
      stack.extend(t.children())
  return out


_DECL_CACHE = {}


def _decl_names(exprs):
  """Names of all uninterpreted symbols (constants and functions) occurring in exprs."""
  out = set()
  for e in exprs:
    key = e.get_id()
    hit = _DECL_CACHE.get(key)
    if hit is None or not hit[0].eq(e):
      names, seen, stack = set(), set(), [e]
      while stack:
        t = stack.pop()
        i = t.get_id()
        if i in seen:
          continue
        seen.add(i)
        if z3.is_quantifier(t):
          stack.append(t.body())
          for k in range(t.num_patterns()):
            stack.extend(t.pattern(k).children())
          continue
        if z3.is_app(t):
          if t.decl().kind() == z3.Z3_OP_UNINTERPRETED:
            names.add(t.decl().name())
          stack.extend(t.children())
      hit = (e, names)
      _DECL_CACHE[key] = hit
    out |= hit[1]
  return out


def relevant_axioms(exprs):
  """The registered axioms whose key symbols occur in exprs (closed under the symbols the
  selected axioms themselves mention); registration order is kept."""
  names = _decl_names(exprs)
  chosen = set()
  changed = True
  while changed:
    changed = False
    for ax in _AXIOMS:
      i = ax.get_id()
      if i in chosen:
        continue
      keys = _AXIOM_KEYS.get(i)
      if keys is None or keys & names:
        chosen.add(i)
        names |= _decl_names([ax])
        changed = True
  # sorted by axiom name: the text of a VC must not depend on registration order either
  return [ax for _, ax in sorted(zip(_AXIOM_NAMES, _AXIOMS), key=lambda p: p[0])
          if ax.get_id() in chosen]


def background_axioms(exprs=None):
  """Axioms added to a VC.  Only axioms, literals and exception classes that are relevant to
  the symbols occurring in the VC are mentioned, so a VC does not depend on what else was
  processed in the same run."""
  axs = list(_AXIOMS) if exprs is None else relevant_axioms(list(exprs))
  if exprs is None:
    lits = list(_STR_LITS.values())
    excs = None
  else:
    occ = _uninterpreted_consts(list(exprs) + axs)
    lits = [c for n, c in sorted(occ.items()) if n.startswith('str!')]
    excs = set(n[4:] for n in occ if n.startswith('exc!'))
  if len(lits) > 1:
    axs.append(z3.Distinct(*lits))
  axs.extend(exc_axioms(excs))
  return axs


_FN_CACHE = {}


def ufun(name, *sorts):
  key = (name,) + tuple(str(s) for s in sorts)
  if key not in _FN_CACHE:
    _FN_CACHE[key] = z3.Function(san(name), *sorts)
  return _FN_CACHE[key]


# ----------------------------------------------------------------------------
# exception classes

_EXC_PARENT = {
    'BaseException': None, 'Exception': 'BaseException',
    'KeyboardInterrupt': 'BaseException', 'SystemExit': 'BaseException',
    'GeneratorExit': 'BaseException',
    'ValueError': 'Exception', 'TypeError': 'Exception',
    'LookupError': 'Exception', 'KeyError': 'LookupError',
    'IndexError': 'LookupError', 'RuntimeError': 'Exception',
    'SyntaxError': 'Exception', 'ImportError': 'Exception',
    'OSError': 'Exception', 'AttributeError': 'Exception',
    'NameError': 'Exception', 'UnboundLocalError': 'NameError', 'AssertionError': 'Exception',
    'StopIteration': 'Exception', 'TokenError': 'Exception',
}
_EXC_ALIASES = {'IOError': 'OSError'}
_EXC_CONSTS = {}


def exc_const(name):
  name = _EXC_ALIASES.get(name, name)
  if name not in _EXC_PARENT:
    raise OutOfSubset(f'unknown exception class {name}')
  if name not in _EXC_CONSTS:
    _EXC_CONSTS[name] = z3.Const('exc!' + name, ExcCls)
  return _EXC_CONSTS[name]


def _exc_is_sub(a, b):
  while a is not None:
    if a == b:
      return True
    a = _EXC_PARENT[a]
  return False


def exc_sub(c1, c2):
  return ufun('exc_sub', ExcCls, ExcCls, BoolS)(c1, c2)


def exc_axioms(only=None):
  names = sorted(_EXC_CONSTS)
  if only is not None:
    keep = set()
    for n in only:
      while n is not None and n in _EXC_PARENT:
        keep.add(n)
        n = _EXC_PARENT[n]
    keep.add('BaseException')
    for n in keep:
      exc_const(n)
    names = sorted(keep)
  axs = []
  if len(names) > 1:
    axs.append(z3.Distinct(*[_EXC_CONSTS[n] for n in names]))
  for a in names:
    for b in names:
      lit = exc_sub(_EXC_CONSTS[a], _EXC_CONSTS[b])
      axs.append(lit if _exc_is_sub(a, b) else z3.Not(lit))
  c = z3.Const('c!exc', ExcCls)
  if 'BaseException' in _EXC_CONSTS:
    axs.append(z3.ForAll([c], exc_sub(c, _EXC_CONSTS['BaseException']),
                         patterns=[exc_sub(c, _EXC_CONSTS['BaseException'])]))
  # transitivity through named classes: sub(c, A) and A<=B  => sub(c, B);
  # and sub(c, A), A and B unrelated-downwards is NOT derivable (c may be a
  # common subclass), which is the sound direction.
  for a in names:
    for b in names:
      if a != b and _exc_is_sub(a, b):
        axs.append(z3.ForAll(
            [c], z3.Implies(exc_sub(c, _EXC_CONSTS[a]),
                            exc_sub(c, _EXC_CONSTS[b])),
            patterns=[exc_sub(c, _EXC_CONSTS[a])]))
  return axs


# ----------------------------------------------------------------------------
# kinds

_DT_CACHE = {}


def _sort_name(s):
  return str(s).replace(' ', '_').replace('(', '_').replace(')', '_').replace(
      ',', '_').replace('[', '_').replace(']', '_')


class Kind:
  name = 'kind'
  mutable = False

  def sort(self):
    raise NotImplementedError

  def fresh(self, name):
    return self.unbox(z3.Const(name, self.sort()))

  def box(self, w):
    raise NotImplementedError

  def unbox(self, e):
    raise NotImplementedError

  def eq(self, a, b):
    return self.box(a) == self.box(b)

  def __repr__(self):
    return self.name


class _KBool(Kind):
  name = 'Bool'

  def sort(self):
    return BoolS

  def box(self, w):
    return w.e

  def unbox(self, e):
    return VBool(e)


class _KInt(Kind):
  name = 'Int'

  def sort(self):
    return IntS

  def box(self, w):
    return w.e

  def unbox(self, e):
    return VInt(e)


class _KStr(Kind):
  name = 'Str'

  def sort(self):
    return Str

  def box(self, w):
    return w.e

  def unbox(self, e):
    return VStr(e)


class _KVal(Kind):
  name = 'Val'

  def sort(self):
    return Val

  def box(self, w):
    if isinstance(w, VObj):
      return w.e
    return to_val(w)

  def unbox(self, e):
    return VObj(e)


class _KStrN(Kind):
  """Native strings (z3/cvc5 theory of strings) -- used only by the contracts of
  the string-splitting helpers, whose specification IS about characters."""
  name = 'StrN'

  def sort(self):
    return z3.StringSort()

  def box(self, w):
    return w.e

  def unbox(self, e):
    return VStr(e)


KStrN = _KStrN()
KBool = _KBool()
KInt = _KInt()
KStr = _KStr()
KVal = _KVal()


class KList(Kind):
  mutable = True

  def __init__(self, elem):
    self.elem = elem
    self.name = f'List[{elem.name}]'
    key = ('list', self.name)
    if key not in _DT_CACHE:
      sn = _sort_name(elem.name)
      dt = z3.Datatype('L_' + sn)
      dt.declare('mkl_' + sn, ('len_' + sn, IntS),
                 ('arr_' + sn, z3.ArraySort(IntS, elem.sort())))
      _DT_CACHE[key] = dt.create()
    self.dt = _DT_CACHE[key]
    sn = _sort_name(elem.name)
    self.mk = getattr(self.dt, 'mkl_' + sn)
    self.f_len = getattr(self.dt, 'len_' + sn)
    self.f_arr = getattr(self.dt, 'arr_' + sn)

  def sort(self):
    return self.dt

  def box(self, w):
    if isinstance(w, VOpt):
      raise OutOfSubset('optional used as list')
    return self.mk(w.len, w.arr)

  def unbox(self, e):
    if z3.is_app(e) and e.decl().eq(self.mk):
      return VList(self, e.arg(0), e.arg(1))
    return VList(self, self.f_len(e), self.f_arr(e))

  def eq(self, a, b):
    """Extensional equality (quantified)."""
    i = z3.Int('i!eq')
    ea = a.at(i) == b.at(i)
    return z3.And(a.len == b.len,
                  z3.ForAll([i], z3.Implies(z3.And(0 <= i, i < a.len), ea)))

  def make(self, n, arr):
    return VList(self, n, arr)

  def empty(self):
    return VList(self, z3.IntVal(0), _empty_arr(IntS, self.elem))

  def from_items(self, items):
    w = self.empty()
    for it in items:
      w.append(it)
    w.len = z3.simplify(w.len)
    w.escaped = False
    return w


def _depth(kind):
  return 1 + _depth(kind.val) if isinstance(kind, KDict) else 0


def _default(kind):
  return z3.Const('dflt!' + _sort_name(kind.name), kind.sort())


def _empty_arr(ksort, kind):
  """Content of an empty container: an arbitrary (uninterpreted) array."""
  return z3.Const('emptyarr!' + _sort_name(str(ksort)) + '!' + _sort_name(kind.name),
                  z3.ArraySort(ksort, kind.sort()))


class KDict(Kind):
  mutable = True

  def __init__(self, key, val):
    self.key = key
    self.val = val
    self.name = f'Dict[{key.name},{val.name}]'
    k = ('dict', self.name)
    if k not in _DT_CACHE:
      sn = _sort_name(self.name)
      dt = z3.Datatype('D_' + sn)
      dt.declare('mkd_' + sn, ('dom_' + sn, z3.ArraySort(key.sort(), BoolS)),
                 ('val_' + sn, z3.ArraySort(key.sort(), val.sort())))
      _DT_CACHE[k] = dt.create()
    self.dt = _DT_CACHE[k]
    sn = _sort_name(self.name)
    self.mk = getattr(self.dt, 'mkd_' + sn)
    self.f_dom = getattr(self.dt, 'dom_' + sn)
    self.f_val = getattr(self.dt, 'val_' + sn)

  def sort(self):
    return self.dt

  def box(self, w):
    return self.mk(w.dom, w.val)

  def unbox(self, e):
    if z3.is_app(e) and e.decl().eq(self.mk):
      return VDict(self, e.arg(0), e.arg(1))
    return VDict(self, self.f_dom(e), self.f_val(e))

  def eq(self, a, b):
    k = z3.Const('k!eq' + str(_depth(self)), self.key.sort())
    if isinstance(self.val, KDict):
      ev = self.val.eq(self.val.unbox(a.val[k]), self.val.unbox(b.val[k]))
    else:
      ev = a.val[k] == b.val[k]
    return z3.ForAll([k], z3.And(a.dom[k] == b.dom[k], z3.Implies(a.dom[k], ev)))

  def empty(self):
    return VDict(self, z3.K(self.key.sort(), z3.BoolVal(False)),
                 _empty_arr(self.key.sort(), self.val))


class KSet(KDict):
  """A set is a dict with unit values (only dom matters)."""

  def __init__(self, key):
    KDict.__init__(self, key, KBool)
    self.is_set = True


class KTuple(Kind):

  def __init__(self, *items):
    self.items = items
    self.name = 'Tup[' + ','.join(i.name for i in items) + ']'
    k = ('tuple', self.name)
    if k not in _DT_CACHE:
      sn = _sort_name(self.name)
      dt = z3.Datatype('T_' + sn)
      dt.declare('mkt_' + sn, *[(f'f{i}_{sn}', it.sort()) for i, it in enumerate(items)])
      _DT_CACHE[k] = dt.create()
    self.dt = _DT_CACHE[k]
    self.sn = _sort_name(self.name)
    self.mk = getattr(self.dt, 'mkt_' + self.sn)

  def sort(self):
    return self.dt

  def box(self, w):
    assert len(w.items) == len(self.items), (w.items, self.items)
    return self.mk(*[k.box(coerce(it, k)) for k, it in zip(self.items, w.items)])

  def unbox(self, e):
    return VTuple([k.unbox(getattr(self.dt, f'f{i}_{self.sn}')(e))
                   for i, k in enumerate(self.items)], self)


class KOpt(Kind):

  def __init__(self, inner):
    self.inner = inner
    self.name = f'Opt[{inner.name}]'
    k = ('opt', self.name)
    if k not in _DT_CACHE:
      sn = _sort_name(self.name)
      dt = z3.Datatype('O_' + sn)
      dt.declare('none_' + sn)
      dt.declare('some_' + sn, ('get_' + sn, inner.sort()))
      _DT_CACHE[k] = dt.create()
    self.dt = _DT_CACHE[k]
    sn = _sort_name(self.name)
    self.c_none = getattr(self.dt, 'none_' + sn)
    self.c_some = getattr(self.dt, 'some_' + sn)
    self.f_get = getattr(self.dt, 'get_' + sn)
    self.is_none_f = getattr(self.dt, 'is_none_' + sn)

  def sort(self):
    return self.dt

  def box(self, w):
    if isinstance(w, VNone):
      return self.c_none
    if isinstance(w, VOpt):
      src = getattr(w, 'src', None)
      if src is not None and w.is_none.eq(self.is_none_f(src)) and \
          self.inner.box(w.inner).eq(self.inner.box(self.inner.unbox(self.f_get(src)))):
        # unchanged since it was unboxed from `src`: the term itself, not its reconstruction
        # ite(is_none(src), none, some(get(src))) (equal by the datatype axioms, but opaque to
        # E-matching and illegal inside patterns)
        return src
      return z3.If(w.is_none, self.c_none, self.c_some(self.inner.box(w.inner)))
    return self.c_some(self.inner.box(w))

  def unbox(self, e):
    w = VOpt(self, self.is_none_f(e), self.inner.unbox(self.f_get(e)))
    w.src = e
    return w


class KRecord(Kind):
  """A NamedTuple / plain object with a fixed set of typed fields."""

  def __init__(self, name, fields, mutable=False, methods=None, variant=''):
    self.rname = name
    name = name + variant        # a second encoding of the same class (e.g. abstract strings)
    self.name = 'Rec_' + name
    self.fields = dict(fields)
    self.mutable = mutable
    self.methods = methods or {}
    k = ('rec', name, tuple((f, kd.name) for f, kd in self.fields.items()))
    if k not in _DT_CACHE:
      dt = z3.Datatype('R_' + name)
      dt.declare('mkr_' + name, *[(f'{name}_{f}', kd.sort())
                                  for f, kd in self.fields.items()])
      _DT_CACHE[k] = dt.create()
    self.dt = _DT_CACHE[k]
    self.dtname = name

  def sort(self):
    return self.dt

  def box(self, w):
    ctor = getattr(self.dt, 'mkr_' + self.dtname)
    parts = [kd.box(coerce(w.fields[f], kd)) for f, kd in self.fields.items()]
    src = getattr(w, 'src', None)
    if src is not None:
      # every field still what unboxing `src` gave?  then the record is `src` itself (equal to
      # its field-wise reconstruction by the datatype axioms, but a far simpler term)
      same = all(p.eq(kd.box(kd.unbox(getattr(self.dt, f'{self.dtname}_{f}')(src))))
                 for p, (f, kd) in zip(parts, self.fields.items()))
      if same:
        return src
    return ctor(*parts)

  def unbox(self, e):
    w = VRecord(self, {f: kd.unbox(getattr(self.dt, f'{self.dtname}_{f}')(e))
                       for f, kd in self.fields.items()})
    w.src = e
    return w


# ----------------------------------------------------------------------------
# wrappers


class W:
  kind = None
  escaped = False

  def truthy(self):
    raise OutOfSubset(f'truth value of {type(self).__name__}')


class VBool(W):
  kind = KBool

  def __init__(self, e):
    self.e = e if z3.is_expr(e) else z3.BoolVal(bool(e))

  def truthy(self):
    return self.e

  def __repr__(self):
    return f'VBool({self.e})'


class VInt(W):
  kind = KInt

  def __init__(self, e):
    self.e = e if z3.is_expr(e) else z3.IntVal(int(e))

  def truthy(self):
    return self.e != 0

  def concrete(self):
    s = z3.simplify(self.e)
    return s.as_long() if z3.is_int_value(s) else None

  def __repr__(self):
    return f'VInt({self.e})'


class VStr(W):

  def __init__(self, e):
    self.e = str_lit(e) if isinstance(e, str) else e

  @property
  def native(self):
    return self.e.sort() == z3.StringSort()

  @property
  def kind(self):
    return KStrN if self.native else KStr

  def truthy(self):
    if self.native:
      return z3.Length(self.e) > 0
    return self.e != str_lit('')

  def concrete(self):
    if self.native:
      s = z3.simplify(self.e)
      return s.as_string() if z3.is_string_value(s) else None
    for s, c in _STR_LITS.items():
      if c.eq(self.e):
        return s
    return None

  def __repr__(self):
    return f'VStr({self.e})'


class VNone(W):

  def truthy(self):
    return z3.BoolVal(False)

  def __repr__(self):
    return 'VNone'


NONE = VNone()

# distinguished opaque objects
VAL_NONE = z3.Const('val!None', Val)
VAL_REQUIRED = z3.Const('val!REQUIRED', Val)

_TAGS = ['none', 'bool', 'int', 'str', 'list', 'tuple', 'dict', 'set',
         'function', 'class', 'other']
Tag, _tagc = z3.EnumSort('Tag', ['t_' + t for t in _TAGS])
TAG = dict(zip(_TAGS, _tagc))


def tag_of(e):
  return ufun('tag_of', Val, Tag)(e)


def val_truthy(e):
  return ufun('val_truthy', Val, BoolS)(e)


def val_as_str(e):
  return ufun('val_as_str', Val, Str)(e)


def val_of_str(e):
  return ufun('val_of_str', Str, Val)(e)


def val_as_bool(e):
  return ufun('val_as_bool', Val, BoolS)(e)


def val_of_bool(e):
  return ufun('val_of_bool', BoolS, Val)(e)


def val_as_int(e):
  return ufun('val_as_int', Val, IntS)(e)


def val_of_int(e):
  return ufun('val_of_int', IntS, Val)(e)


def val_axioms():
  n = z3.Int('n!va')
  add_axiom('val_int_roundtrip', z3.ForAll(
      [n], z3.And(val_as_int(val_of_int(n)) == n,
                  tag_of(val_of_int(n)) == TAG['int'],
                  val_truthy(val_of_int(n)) == (n != 0)),
      patterns=[val_of_int(n)]), keys=['val_of_int'])
  s = z3.Const('s!va', Str)
  b = z3.Const('b!va', BoolS)
  add_axiom('val_str_roundtrip', z3.ForAll(
      [s], z3.And(val_as_str(val_of_str(s)) == s,
                  tag_of(val_of_str(s)) == TAG['str'],
                  val_truthy(val_of_str(s)) == (s != str_lit(''))),
      patterns=[val_of_str(s)]), keys=['val_of_str'])
  add_axiom('val_bool_roundtrip', z3.ForAll(
      [b], z3.And(val_as_bool(val_of_bool(b)) == b,
                  tag_of(val_of_bool(b)) == TAG['bool'],
                  val_truthy(val_of_bool(b)) == b),
      patterns=[val_of_bool(b)]), keys=['val_of_bool'])
  add_axiom('val_none', z3.And(tag_of(VAL_NONE) == TAG['none'],
                               z3.Not(val_truthy(VAL_NONE)),
                               tag_of(VAL_REQUIRED) == TAG['other'],
                               val_truthy(VAL_REQUIRED)),
            keys=['val!None', 'val!REQUIRED', 'tag_of', 'val_truthy'])
  v = z3.Const('v!va', Val)
  add_axiom('val_none_unique', z3.ForAll(
      [v], (tag_of(v) == TAG['none']) == (v == VAL_NONE),
      patterns=[tag_of(v)]), keys=['tag_of'])


def to_val(w):
  """Inject a typed wrapper into the opaque `Val` sort."""
  if isinstance(w, VObj):
    return w.e
  if isinstance(w, VNone):
    return VAL_NONE
  if isinstance(w, VStr):
    val_axioms()
    return val_of_str(w.e)
  if isinstance(w, VBool):
    val_axioms()
    return val_of_bool(w.e)
  if isinstance(w, VInt):
    val_axioms()
    return val_of_int(w.e)
  if isinstance(w, VOpt):
    return z3.If(w.is_none, VAL_NONE, to_val(w.inner))
  if isinstance(w, (VList, VDict, VTuple, VRecord)):
    # opaque injection: an uninterpreted, invertible image of the boxed value
    boxed = w.kind.box(w)
    sn = _sort_name(w.kind.name)
    f = ufun('val_of_' + sn, boxed.sort(), Val)
    g = ufun('val_as_' + sn, Val, boxed.sort())
    b = z3.Const('b!inj' + sn, boxed.sort())
    extra = []
    if isinstance(w, VRecord):
      extra.append(ufun('isinst_' + w.kind.rname, Val, BoolS)(f(b)))
    tagname = {VList: 'list', VDict: 'dict', VTuple: 'tuple'}.get(type(w))
    if isinstance(w, VDict) and getattr(w.kind, 'is_set', False):
      tagname = 'set'
    if tagname:
      extra.append(tag_of(f(b)) == TAG[tagname])
    add_axiom('inj_' + sn, z3.ForAll([b], z3.And(g(f(b)) == b, *extra),
                                     patterns=[f(b)]), keys=['val_of_' + sn])
    return f(boxed)
  if isinstance(w, VPy) and w.what == 'closure':
    # a function object created by a `def` executed in the function under contract: an opaque
    # (truthy) value named after the definition
    fnode = w.payload[0]
    v = z3.Const('val!closure!' + san(fnode.name), Val)
    return v
  raise OutOfSubset(f'cannot inject {type(w).__name__} into Val')


class VObj(W):
  """Opaque Python object."""
  kind = KVal

  def __init__(self, e):
    self.e = e

  def truthy(self):
    val_axioms()
    return val_truthy(self.e)

  def __repr__(self):
    return f'VObj({self.e})'


class VList(W):

  def __init__(self, kind, n, arr):
    self.kind = kind
    self.len = n if z3.is_expr(n) else z3.IntVal(n)
    self.arr = arr
    self.escaped = False
    self.owner = None   # write-through link (owner wrapper, key expr)

  def truthy(self):
    return self.len > 0

  def at(self, i):
    i = i if z3.is_expr(i) else z3.IntVal(i)
    return z3.Select(self.arr, i)

  def get(self, i):
    return self.kind.elem.unbox(self.at(i))

  def _mutate(self):
    if self.escaped and self.owner is None:
      raise OutOfSubset('list mutated after it escaped into a symbolic '
                        'container (aliasing not modelled)')

  def _wb(self):
    if self.owner is not None:
      self.owner()

  def append(self, w):
    self._mutate()
    self.arr = z3.Store(self.arr, self.len, self.kind.elem.box(coerce(w, self.kind.elem)))
    self.len = self.len + 1
    self._wb()

  def set(self, i, w):
    self._mutate()
    self.arr = z3.Store(self.arr, i, self.kind.elem.box(coerce(w, self.kind.elem)))
    self._wb()

  def extend(self, other):
    self._mutate()
    i = z3.Int('i!ext')
    self.arr = z3.Lambda([i], z3.If(i < self.len, self.arr[i],
                                    other.arr[i - self.len]))
    self.len = self.len + other.len
    self._wb()

  def pop_last(self):
    self._mutate()
    v = self.get(self.len - 1)
    self.len = self.len - 1
    self._wb()
    return v

  def copy(self):
    return VList(self.kind, self.len, self.arr)

  def prefix(self, k):
    """self[:k] for 0 <= k (clamped to len)."""
    k = k if z3.is_expr(k) else z3.IntVal(k)
    n = z3.If(k < 0, z3.If(self.len + k < 0, 0, self.len + k),
              z3.If(k > self.len, self.len, k))
    return VList(self.kind, z3.simplify(n), self.arr)

  def _concrete_items(self):
    n = z3.simplify(self.len)
    if z3.is_int_value(n) and n.as_long() <= 8:
      return [self.get(i) for i in range(n.as_long())]
    return None

  def suffix(self, k):
    """self[k:]."""
    k = k if z3.is_expr(k) else z3.IntVal(k)
    items, kk = self._concrete_items(), z3.simplify(k)
    if items is not None and z3.is_int_value(kk):
      sl = items[kk.as_long():]
      return self.kind.from_items(sl) if sl else self.kind.empty()
    s = z3.If(k < 0, z3.If(self.len + k < 0, 0, self.len + k),
              z3.If(k > self.len, self.len, k))
    s = z3.simplify(s)
    i = z3.Int('i!suf')
    return VList(self.kind, z3.simplify(self.len - s),
                 z3.Lambda([i], self.arr[i + s]))

  def reversed(self):
    items = self._concrete_items()
    if items is not None:
      return self.kind.from_items(items[::-1]) if items else self.kind.empty()
    i = z3.Int('i!rev')
    return VList(self.kind, self.len, z3.Lambda([i], self.arr[self.len - 1 - i]))

  def contains(self, w):
    i = z3.Int('i!in')
    x = self.kind.elem.box(coerce(w, self.kind.elem))
    return z3.Exists([i], z3.And(0 <= i, i < self.len, self.arr[i] == x))

  def __repr__(self):
    return f'VList({self.kind.name}, len={self.len})'


class VDict(W):

  def __init__(self, kind, dom, val):
    self.kind = kind
    self.dom = dom
    self.val = val
    self.escaped = False
    self.owner = None
    self.stale = False

  def truthy(self):
    k = z3.Const('k!nz', self.kind.key.sort())
    return z3.Exists([k], self.dom[k])

  def _mutate(self):
    if self.stale:
      raise OutOfSubset('write through a stale borrowed dict')
    if self.escaped and self.owner is None:
      raise OutOfSubset('dict mutated after it escaped into a symbolic '
                        'container (aliasing not modelled)')

  def _wb(self):
    if self.owner is not None:
      self.owner()

  def key(self, w):
    return self.kind.key.box(coerce(w, self.kind.key))

  def has(self, w):
    return z3.Select(self.dom, self.key(w))

  def get(self, w):
    return self.kind.val.unbox(z3.Select(self.val, self.key(w)))

  def set(self, w, v):
    self._mutate()
    k = self.key(w)
    self.dom = z3.Store(self.dom, k, z3.BoolVal(True))
    self.val = z3.Store(self.val, k, self.kind.val.box(coerce(v, self.kind.val)))
    self._wb()

  def delete(self, w):
    self._mutate()
    self.dom = z3.Store(self.dom, self.key(w), z3.BoolVal(False))
    self._wb()

  def clear(self):
    self._mutate()
    e = self.kind.empty()
    self.dom, self.val = e.dom, e.val
    self._wb()

  def update(self, other):
    self._mutate()
    k = z3.Const('k!upd', self.kind.key.sort())
    self.dom = z3.Lambda([k], z3.Or(self.dom[k], other.dom[k]))
    self.val = z3.Lambda([k], z3.If(other.dom[k], other.val[k], self.val[k]))
    self._wb()

  def copy(self):
    return VDict(self.kind, self.dom, self.val)

  def __repr__(self):
    return f'VDict({self.kind.name})'


class VTuple(W):

  def __init__(self, items, kind=None):
    self.items = list(items)
    self._kind = kind

  @property
  def kind(self):
    if self._kind is None:
      self._kind = KTuple(*[kind_of(i) for i in self.items])
    return self._kind

  def truthy(self):
    return z3.BoolVal(len(self.items) > 0)

  def __repr__(self):
    return f'VTuple({self.items})'


class VOpt(W):

  def __init__(self, kind, is_none, inner):
    self.kind = kind
    self.is_none = is_none
    self.inner = inner

  def truthy(self):
    return z3.And(z3.Not(self.is_none), self.inner.truthy())

  def __repr__(self):
    return f'VOpt({self.kind.name})'


class VRecord(W):

  def __init__(self, kind, fields):
    self.kind = kind
    self.fields = fields
    self.escaped = False

  def truthy(self):
    return z3.BoolVal(True)

  def __repr__(self):
    return f'VRecord({self.kind.rname})'


class VExc(W):
  """An exception object: class (ExcCls expr), identity (Val) and payload."""

  def __init__(self, cls, ident=None, args=None, note=None):
    self.cls = exc_const(cls) if isinstance(cls, str) else cls
    self.ident = ident
    self.args = args or []
    self.note = note
    self.origin = 'callee'
    self.raised_by = None      # qualified name of the callee whose contract raised it
    cn = None
    for n, c in _EXC_CONSTS.items():
      if c.eq(self.cls):
        cn = n
    self.cname = cn

  def truthy(self):
    return z3.BoolVal(True)

  def __repr__(self):
    return f'VExc({self.cname or self.cls})'


_pdt = z3.Datatype('Path')
_pdt.declare('pnil')
_pdt.declare('psnoc', ('ptail', _pdt), ('plast', Str))
PathS = _pdt.create()


class VPath(W):
  """A path in a selector tree: components innermost-first (root = pnil)."""

  def __init__(self, e):
    self.e = e

  def __repr__(self):
    return f'VPath({self.e})'


class _KPath(Kind):
  name = 'Path'

  def sort(self):
    return PathS

  def box(self, w):
    return w.e

  def unbox(self, e):
    return VPath(e)


KPath = _KPath()
VPath.kind = KPath


class VPy(W):
  """A concrete Python-level object known to the engine (class, function with
  built-in semantics, module, bound method, lambda closure...)."""

  def __init__(self, what, payload=None):
    self.what = what
    self.payload = payload

  def truthy(self):
    return z3.BoolVal(True)

  def __repr__(self):
    return f'VPy({self.what}, {self.payload!r})'


# ----------------------------------------------------------------------------
# helpers


def kind_of(w):
  if isinstance(w, VNone):
    return KOpt(KVal)
  k = w.kind
  if k is None:
    raise OutOfSubset(f'no kind for {w!r}')
  return k


DOWNCAST_HOOK = None     # set by the executor: callable(val_expr, record_kind, unless)
_HOOK_OFF = [0]          # > 0 while a contract clause (not executed code) is being evaluated


class no_downcast_checks:
  """Context manager: views of opaque values built by contract text are not code."""

  def __enter__(self):
    _HOOK_OFF[0] += 1

  def __exit__(self, *a):
    _HOOK_OFF[0] -= 1


def _downcast(w, kind, unless=None):
  """Executed code stores / passes an opaque value where the contract declared a record kind:
  that view is only sound if the value IS such a record -- an obligation, not an assumption."""
  if DOWNCAST_HOOK is not None and not _HOOK_OFF[0] and isinstance(kind, KRecord):
    DOWNCAST_HOOK(w.e, kind, unless)


def coerce(w, kind):
  """Convert wrapper `w` to the given kind where a canonical conversion exists."""
  if isinstance(w, W) and w.kind is kind:
    return w
  if isinstance(kind, KOpt):
    if isinstance(w, VNone):
      return VOpt(kind, z3.BoolVal(True), kind.inner.unbox(_default(kind.inner)))
    if isinstance(w, VOpt):
      if w.kind.name == kind.name:
        return w
      raise OutOfSubset(f'optional kind mismatch {w.kind.name} vs {kind.name}')
    if isinstance(w, VObj) and kind.inner is not KVal:
      val_axioms()
      _downcast(w, kind.inner, unless=w.e == VAL_NONE)
      with no_downcast_checks():
        return VOpt(kind, w.e == VAL_NONE, coerce(w, kind.inner))
    return VOpt(kind, z3.BoolVal(False), coerce(w, kind.inner))
  if kind is KVal:
    return VObj(to_val(w))
  if kind is KBool and isinstance(w, VBool):
    return w
  if kind is KInt and isinstance(w, VInt):
    return w
  if kind is KInt and isinstance(w, VBool):
    return VInt(z3.If(w.e, z3.IntVal(1), z3.IntVal(0)))
  if kind is KStr and isinstance(w, VStr):
    return w
  if kind is KStrN and isinstance(w, VStr):
    return w
  if kind is KStr and isinstance(w, VObj):
    val_axioms()
    return VStr(val_as_str(w.e))
  if kind is KBool and isinstance(w, VObj):
    val_axioms()
    return VBool(val_as_bool(w.e))
  if isinstance(w, W) and w.kind is not None and w.kind.name == kind.name:
    return w
  if isinstance(w, VObj) and isinstance(kind, (KList, KDict, KTuple, KRecord)):
    _downcast(w, kind)
    f = ufun('val_as_' + _sort_name(kind.name), Val, kind.sort())
    return kind.unbox(f(w.e))
  if isinstance(kind, KTuple) and isinstance(w, VTuple):
    return VTuple([coerce(i, k) for i, k in zip(w.items, kind.items)], kind)
  if isinstance(kind, KList) and isinstance(w, VTuple):
    return kind.from_items(w.items)
  raise OutOfSubset(f'cannot coerce {w!r} to {kind.name}')




def escape(w):
  """Mark a mutable wrapper as having been stored somewhere symbolic."""
  if isinstance(w, (VList, VDict, VRecord)):
    w.escaped = True
  if isinstance(w, VTuple):
    for i in w.items:
      escape(i)
  if isinstance(w, VOpt):
    escape(w.inner)


def _pattern_ok(e):
  seen = set()
  stack = [e]
  has_var = False
  while stack:
    t = stack.pop()
    if t.get_id() in seen:
      continue
    seen.add(t.get_id())
    if z3.is_quantifier(t):
      return False
    if z3.is_var(t):
      continue
    if z3.is_app(t):
      k = t.decl().kind()
      if k in (z3.Z3_OP_ITE, z3.Z3_OP_AND, z3.Z3_OP_OR, z3.Z3_OP_NOT,
               z3.Z3_OP_IMPLIES, z3.Z3_OP_EQ, z3.Z3_OP_LE, z3.Z3_OP_GE,
               z3.Z3_OP_LT, z3.Z3_OP_GT, z3.Z3_OP_DISTINCT):
        return False
      stack.extend(t.children())
  return True


def forall(vs, body, patterns=()):
  """ForAll with only those candidate triggers that are legal patterns."""
  ok = []
  for p in patterns:
    ps = p if isinstance(p, (list, tuple)) else [p]
    if all(_pattern_ok(z3.simplify(x)) and _pattern_ok(x) for x in ps):
      ok.append(z3.MultiPattern(*ps) if len(ps) > 1 else ps[0])
  if ok:
    return z3.ForAll(list(vs), body, patterns=ok)
  return z3.ForAll(list(vs), body)
