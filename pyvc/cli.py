"""Developer CLI: python3-vt -m pyvc.cli [--prop C09] [--fn substring] [-v]"""
import argparse
import collections
import sys
import time

sys.path.insert(0, '/verif')

from pyvc import run, extract, solve
from pyvc import contract as C


def main():
  ap = argparse.ArgumentParser()
  ap.add_argument('--prop')
  ap.add_argument('--fn')
  ap.add_argument('-v', action='store_true')
  ap.add_argument('--repo')
  ap.add_argument('--dump')
  ap.add_argument('--only')
  a = ap.parse_args()
  t0 = time.time()
  reg = run.load_contracts()
  repo = extract.Repo(a.repo)
  quals = [q for q, c in reg.items()
           if (not a.prop or a.prop in c.props) and (not a.fn or a.fn in q)]
  fres, index, results, wall = run.check_functions(repo, quals, only=a.only)
  bad = 0
  for q in quals:
    r = fres.get(q)
    if r is None:
      print(f'-- {q}: (assumed)')
      continue
    print(f'-- {q}: {r.status} {r.detail} paths={r.paths} gen={r.gen_time:.2f}s')
  by_name = collections.OrderedDict()
  for key, (ob, pi, q) in index.items():
    by_name.setdefault((ob.name, ob.kind), []).append(results[key])
  for (name, kind), rs in by_name.items():
    vs = [r['verdict'] for r in rs]
    if kind == 'canary':
      ok = any(v != 'unsat' for v in vs)
      tag = 'ok(not provable)' if ok else 'VACUOUS/PROVABLE'
    else:
      ok = all(v == 'unsat' for v in vs)
      tag = 'proved' if ok else 'NOT PROVED ' + ','.join(vs)
    if not ok:
      bad += 1
    if a.v or not ok:
      be = collections.Counter(r['backend'] for r in rs)
      tm = sum(r['time'] for r in rs)
      print(f'   {tag:22s} {name}  x{len(rs)}  {dict(be)} {tm:.2f}s')
  if a.dump:
    for key, (ob, pi, q) in index.items():
      if a.dump in key and results[key]['verdict'] != 'unsat':
        print('=====', key, results[key])
        print(solve.to_smt2(ob.hyps, ob.goal))
        break
  print(f'functions={len(quals)} obligations={len(index)} bad={bad} '
        f'solve={wall:.1f}s total={time.time()-t0:.1f}s')


if __name__ == '__main__':
  main()
