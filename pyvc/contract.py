"""pyvc.contract -- the contract data model and registry.

A contract is attached to exactly one real function by qualified path.  It is
built by a Python function in /verif/contracts/*.py through the small API below.
Clauses are Python callables `clause(ctx) -> z3 Bool`; they are evaluated both
when the function itself is verified (against its real body) and at every call
site of the function in other verified bodies (modular use).
"""
import collections


class Clause:

  def __init__(self, label, fn, props=None):
    self.label = label
    self.raw_fn = fn

    def guarded(*a, **k):
      # views of opaque values built by the clause text are specification, not executed code
      from pyvc import sym
      with sym.no_downcast_checks():
        return fn(*a, **k)
    self.fn = guarded
    self.props = props  # None => inherits the contract's props


class RaiseCase:
  """`raises`: under condition `when(ctx)` (over the pre-state) the function may
  raise an instance of `exc`; `ensures` hold in the post-state of that exit."""

  def __init__(self, label, exc, when=None, ensures=(), modifies=None):
    self.label = label
    self.exc = exc
    if when is not None:
      raw = when

      def when(ctx, _raw=raw):
        from pyvc import sym
        with sym.no_downcast_checks():
          return _raw(ctx)
    self.when = when
    self.ensures = list(ensures)
    self.modifies = modifies


class LoopSpec:

  def __init__(self, invariants, havoc=None, keep=None, decreases=None,
               ghost_step=None, unroll=False, ghost=None, after=None,
               before=None, body_start=None):
    self.invariants = list(invariants)   # [Clause] ; fn(ctx, k)
    self.havoc = havoc      # extra names to havoc
    self.keep = keep        # names NOT to havoc although syntactically assigned
    self.decreases = decreases
    self.ghost_step = ghost_step  # callable(ex, ctx, k): ghost code after the body
    self.ghost = ghost or []      # ghost variables the ghost code updates
    self.after = after            # callable(ex, ctx): ghost code at loop exit
    self.body_start = body_start  # callable(ex, ctx, k): ghost code at the start of an iteration
    self.before = before          # callable(ex, ctx): ghost code before the loop
    self.unroll = unroll


class Contract:

  def __init__(self, qual, props, kind='proved'):
    self.qual = qual
    self.props = list(props)
    self.kind = kind                   # 'proved' | 'assumed'
    self.params = collections.OrderedDict()   # name -> (kind, default factory|None)
    self.vararg = None                 # (name, kind)
    self.kwarg = None                  # (name, kind)
    self.self_kind = None
    self.free = {}                     # closure variable name -> kind | factory
    self.result = None                 # kind (None => returns None)
    self.requires = []
    self.assumes = []                  # assumed at entry, NOT checked at call sites (class
                                       # invariants, definitions of spec functions)
    self.ensures = []
    self.raises = []
    self.exc_ensures = []              # hold on EVERY exceptional exit
    self.raises_only_listed = False
    self.modifies = set()
    self.loops = {}
    self.is_cm = False                 # generator-based context manager
    self.cm_enter = []                 # clauses at the yield point
    self.cm_yields = None              # kind of yielded value
    self.cm_exit = []                  # clauses on normal completion after body
    self.cm_exit_exc = []              # clauses when the body raised (any exit)
    self.cm_swallows = False           # may the manager swallow the exception?
    self.cm_body_havoc = set()         # state fields the with-body may change
    self.cm_body_assume = []           # what the manager assumes about the body
    self.opaque_pure = True            # opaque callbacks do not touch gin state
    self.opaque_havoc = None           # or: set of fields they may change
    self.opaque_may_raise = True
    self.dispatch = None               # callable(args) -> another contract (by argument kind)
    self.custom = None                 # callable(ex, args, node): replaces the whole call
    self.abstract_stmts = []           # [(predicate(stmt), reason)]: statements havoced
    self.opaque_model = None           # callable(ex, fn, args, kwargs, node) -> wrapper|None
    self.val_ops_may_raise = False     # truthiness/eq/in on opaque Val may raise
    self.checkpoints = {}              # anchor -> [Clause]
    self.hints = []                    # [(predicate(stmt), Clause)]: lemma proved, then assumed,
                                       # right after a matching top-level statement
    self.ghost_init = None             # callable(ctx) to initialise ghost state
    self.inline_ok = set()             # callee quals executed inline
    self.notes = []
    self.assumptions = []
    self.canaries = []                 # clauses that must NOT be provable
    self.strings = 'abstract'          # or 'native'
    self.target = None                 # real function, when the registry name differs
    self.skip_proof = None             # reason when no proof is attempted
    self.setup = None                  # callable(exec, ctx): extra env set-up
    self.local_kinds = {}              # local variable name -> kind
    self.ghost_vars = {}               # ghost variable -> init(ctx) -> wrapper
    self.guarded = {}                  # state field -> ghost lock counter that must be held
    self.cls_param = None              # classmethod: name of the record class bound to `cls`
    self.modifies_self = []            # fields of `self` a method may change
    self.at_return = None              # callable(ex, ctx): ghost code at a normal return
    self.may_raise_other = False       # callers must expect unlisted exceptions

  # -- builder API -----------------------------------------------------------
  def param(self, name, kind, default=None):
    self.params[name] = (kind, default)
    return self

  def require(self, label, fn):
    self.requires.append(Clause(label, fn))

  def assume_entry(self, label, fn, why):
    self.assumes.append(Clause(label, fn))
    note = f'{label}: {why}'
    if note not in self.assumptions:
      self.assumptions.append(note)

  def ensure(self, label, fn, props=None):
    self.ensures.append(Clause(label, fn, props))

  def exc_ensure(self, label, fn, props=None):
    self.exc_ensures.append(Clause(label, fn, props))

  def raise_case(self, label, exc, when=None, ensures=(), modifies=None):
    self.raises.append(RaiseCase(label, exc, when, [
        e if isinstance(e, Clause) else Clause(*e) for e in ensures], modifies))

  def loop(self, ordinal, invariants, **kw):
    self.loops[ordinal] = LoopSpec(
        [i if isinstance(i, Clause) else Clause(*i) for i in invariants], **kw)

  def checkpoint(self, anchor, label, fn, props=None):
    self.checkpoints.setdefault(anchor, []).append(Clause(label, fn, props))

  def hint(self, after, label, fn):
    """A hint assertion: after the first-level statement for which `after(stmt)` holds, `fn` is
    proved as an obligation of its own and then assumed.  A hint whose text refers to a local the
    code does not have is skipped (it can only help a proof, never make one)."""
    self.hints.append((after, Clause(label, fn)))

  def canary(self, label, fn):
    self.canaries.append(Clause(label, fn))


REGISTRY = collections.OrderedDict()     # qual -> Contract
CALL_NAMES = {}                          # how callers spell it -> qual


def register(c, call_names=()):
  REGISTRY[c.qual] = c
  for n in call_names:
    CALL_NAMES[n] = c.qual
  return c
