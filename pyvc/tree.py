"""pyvc.tree -- the suffix tree of SelectorMap viewed as predicates over paths.

`SelectorMap._selector_tree` is nested dicts walked by a cursor.  It is viewed as
  alive(pi) : a dict object exists at path pi (components innermost first, root = pnil)
  term(pi)  : that dict has the '$' key;  tval(pi): the string stored under it
  tnone(pi) : the '$' key is present but holds None (transient state inside pop)
A cursor (`VNode`) is a path into one tree record; dict operations on it are
translated to reads/updates of those predicates.  Addressing nodes by path is only
faithful if (a) a dict that does not exist has no existing descendants, and (b) no
dict is reachable by two paths.  (a) is the closure invariant, kept as a proof
obligation wherever a child key is removed (`popped_dict_is_empty`); (b) is the
ownership obligation: the only dicts ever stored into a tree are fresh `{}` literals
(checked here: `setdefault`'s default must be the empty display) or deep copies.
"""
import z3

from pyvc import sym
from pyvc.sym import (OutOfSubset, PyRaise, VBool, VInt, VStr, VNone, NONE, VObj, VList, VDict,
                      VTuple, VOpt, VRecord, VExc, VPy, KStr, KInt, KBool, KOpt, Kind, PathS)

TERMINAL = '$'
snoc = PathS.psnoc
nil = PathS.pnil


class KNode(Kind):
  name = 'Node'

  def __init__(self, tree):
    self.tree = tree

  def sort(self):
    return PathS

  def box(self, w):
    return w.path

  def unbox(self, e):
    return VNode(self.tree, e)


class VNode(sym.W):
  """A dict inside the tree `tree` (a VRecord of kind SelTree) at path `path`."""

  def __init__(self, tree, path):
    self.tree = tree
    self.path = path

  @property
  def kind(self):
    return KNode(self.tree)

  def alive(self):
    return self.tree.fields['alive'].dom

  def term(self):
    return self.tree.fields['term'].dom

  def child(self, c):
    return snoc(self.path, c)

  def truthy(self):
    c = z3.Const('c!nz', sym.Str)
    return z3.Or(z3.Select(self.term(), self.path),
                 z3.Exists([c], z3.Select(self.alive(), self.child(c))))

  def __repr__(self):
    return f'VNode({self.path})'


class VNodeCopy(sym.W):
  """`node.copy()`: a new dict with the same keys (children are shared)."""

  def __init__(self, node, has_term):
    self.node = node
    self.has_term = has_term

  def truthy(self):
    c = z3.Const('c!nz', sym.Str)
    return z3.Or(self.has_term, z3.Exists(
        [c], z3.Select(self.node.alive(), self.node.child(c))))


def root_of(tree_rec):
  return VNode(tree_rec, nil)


def is_tree(w):
  return isinstance(w, VRecord) and w.kind.rname == 'SelTree'


def as_node(w):
  if is_tree(w):
    return root_of(w)
  return w


def _is_terminal_key(ex, key, node_ast):
  """Python-level: is `key` the literal '$'?  For symbolic keys the obligation
  that it is NOT '$' is emitted (components of valid selectors never are)."""
  if isinstance(key, VStr) and key.concrete() == TERMINAL:
    return True
  if isinstance(key, VStr):
    # a symbolic key: both cases are explored (the '$' case is infeasible wherever the
    # key is a component of a valid name)
    if ex.path.decide(key.e == sym.str_lit(TERMINAL)):
      if not ex.path.feasible():
        from pyvc.exec import PathEnd
        raise PathEnd()
      return True
    return False
  raise OutOfSubset('tree key is not a string', node_ast)


def children(ex, node):
  """Enumeration of the child keys of a node: a duplicate-free list of exactly the
  components c with alive(snoc(path, c))  (dict iteration order: arbitrary)."""
  n = ex.path.fresh_const('nch', sym.IntS)
  keys = ex.path.fresh_const('chkeys', z3.ArraySort(sym.IntS, sym.Str))
  idx = z3.Function(ex.path.fresh_name('chidx'), sym.Str, sym.IntS)
  i = z3.Int('i!ch')
  c = z3.Const('c!ch', sym.Str)
  alive = node.alive()
  ex.path.assume(n >= 0)
  ex.path.assume(sym.forall([i], z3.Implies(z3.And(0 <= i, i < n), z3.And(
      z3.Select(alive, node.child(keys[i])), idx(keys[i]) == i)), patterns=[keys[i]]))
  ex.path.assume(sym.forall([c], z3.Implies(
      z3.Select(alive, node.child(c)),
      z3.And(0 <= idx(c), idx(c) < n, keys[idx(c)] == c)),
      patterns=[idx(c), z3.Select(alive, node.child(c))]))
  return n, keys, idx


# -- hooks called from world -----------------------------------------------------------------

def node_contains(ex, w, key, node_ast):
  nd = as_node(w)
  if isinstance(nd, VNodeCopy):
    nd = nd.node
  if _is_terminal_key(ex, key, node_ast):
    return z3.Select(nd.term(), nd.path)
  return z3.Select(nd.alive(), nd.child(key.e))


def _term_value(nd):
  t = nd.tree.fields
  return VOpt(KOpt(KStr), z3.Select(t['tnone'].dom, nd.path),
              VStr(z3.Select(t['tval'].val, nd.path)))


def node_getitem(ex, w, key, node_ast):
  nd = as_node(w)
  if _is_terminal_key(ex, key, node_ast):
    if not ex.path.decide(z3.Select(nd.term(), nd.path)):
      ex.py_raise('KeyError', node_ast)
    return _term_value(nd)
  ch = nd.child(key.e)
  if not ex.path.decide(z3.Select(nd.alive(), ch)):
    ex.py_raise('KeyError', node_ast)
  return VNode(nd.tree, ch)


def node_setitem(ex, w, key, v, node_ast):
  nd = as_node(w)
  if not _is_terminal_key(ex, key, node_ast):
    raise OutOfSubset('storing a dict into the tree other than through setdefault(c, {})',
                      node_ast)
  t = nd.tree.fields
  t['term'].set(sym.VPath(nd.path), VBool(True))
  if isinstance(v, VNone):
    t['tnone'].set(sym.VPath(nd.path), VBool(True))
  else:
    t['tnone'].dom = z3.Store(t['tnone'].dom, nd.path, z3.BoolVal(False))
    t['tval'].set(sym.VPath(nd.path), sym.coerce(v, KStr))


def node_len(ex, w, node_ast):
  nd = as_node(w)
  n, keys, idx = children(ex, nd)
  ex.path.ghost['last_len_children'] = (nd, n, keys, idx)    # for ghost code of contracts
  return VInt(n + z3.If(z3.Select(nd.term(), nd.path), 1, 0))


def node_method(ex, w, name, args, kwargs, node_ast):
  nd = as_node(w)
  if isinstance(nd, VNodeCopy):
    return copy_method(ex, nd, name, args, kwargs, node_ast)
  t = nd.tree.fields
  if name == 'setdefault':
    key, default = args
    if not (isinstance(default, VPy) and default.what == 'emptydict'):
      raise OutOfSubset('setdefault on the tree with a default other than a fresh {} '
                        '(ownership of tree nodes)', node_ast)
    if _is_terminal_key(ex, key, node_ast):
      raise OutOfSubset("setdefault('$', ...)", node_ast)
    ch = nd.child(key.e)
    if not ex.path.decide(z3.Select(nd.alive(), ch)):
      t['alive'].set(sym.VPath(ch), VBool(True))
    return VNode(nd.tree, ch)
  if name == 'copy':
    return VNodeCopy(nd, z3.Select(nd.term(), nd.path))
  if name == 'clear':
    if not nd.path.eq(nil):
      raise OutOfSubset('clear() of an inner tree node', node_ast)
    for f in ('alive', 'term', 'tnone'):
      t[f].clear()
    t['alive'].set(sym.VPath(nil), VBool(True))
    return NONE
  if name == 'pop':
    key = args[0]
    if _is_terminal_key(ex, key, node_ast):
      if not ex.path.decide(z3.Select(nd.term(), nd.path)):
        if len(args) > 1:
          return args[1]
        ex.py_raise('KeyError', node_ast)
      v = _term_value(nd)
      t['term'].dom = z3.Store(t['term'].dom, nd.path, z3.BoolVal(False))
      return v
    ch = nd.child(key.e)
    if not ex.path.decide(z3.Select(nd.alive(), ch)):
      if len(args) > 1:
        return args[1]
      ex.py_raise('KeyError', node_ast)
    chn = VNode(nd.tree, ch)
    # removing a child key detaches the whole subtree: the view stays faithful only
    # if that dict is empty (this is also what keeps stored names reachable)
    ex.path.oblige(f'{ex.contract.qual}/tree/popped_dict_is_empty#{ex.at(node_ast)}',
                   z3.Not(chn.truthy()))
    t['alive'].dom = z3.Store(t['alive'].dom, ch, z3.BoolVal(False))
    return chn
  raise OutOfSubset(f'tree node method {name}', node_ast)


def copy_method(ex, cp, name, args, kwargs, node_ast):
  nd = cp.node
  if name == 'pop':
    key = args[0]
    if not _is_terminal_key(ex, key, node_ast):
      raise OutOfSubset('pop of a child key on a node copy', node_ast)
    if not ex.path.decide(cp.has_term):
      if len(args) > 1:
        return args[1]
      ex.py_raise('KeyError', node_ast)
    cp.has_term = z3.BoolVal(False)
    return _term_value(nd)
  if name == 'values':
    from pyvc.exec import Iter
    ex.path.oblige(f'{ex.contract.qual}/tree/values_of_a_copy_without_terminal_key'
                   f'#{ex.at(node_ast)}', z3.Not(cp.has_term))
    n, keys, idx = children(ex, nd)
    ex.path.ghost['last_children'] = (nd, n, keys, idx)
    it = Iter(n, lambda j: VNode(nd.tree, nd.child(keys[j])))
    it.keys, it.idx, it.node = keys, idx, nd
    it.elem_kind = KNode(nd.tree)
    return it
  raise OutOfSubset(f'method {name} of a node copy', node_ast)
