"""pyvc.astchecks -- obligations read off the real AST (frames over the whole module).

Each check returns (obligation name, ok, detail).  They are recomputed from
/repo on every run; they are the module-wide frame/ownership conditions that the
per-function contracts rely on ("nobody else writes this store").
"""
import ast

MUTATORS = {'append', 'extend', 'pop', 'update', 'clear', 'setdefault', 'add',
            'remove', 'insert', 'discard', 'popitem', 'sort', 'reverse',
            '__setitem__', 'appendleft', 'extendleft'}


def _functions(tree):
  """(qualified name, node) for every function, nested ones included."""
  out = []

  def walk(node, prefix):
    for n in ast.iter_child_nodes(node):
      if isinstance(n, (ast.FunctionDef, ast.AsyncFunctionDef)):
        out.append((prefix + n.name, n))
        walk(n, prefix + n.name + '.')
      elif isinstance(n, ast.ClassDef):
        walk(n, prefix + n.name + '.')
      else:
        walk(n, prefix)
  walk(tree, '')
  return out


def _own_nodes(fn):
  """Nodes of a function body excluding nested function bodies."""
  stack = list(fn.body)
  while stack:
    n = stack.pop()
    yield n
    if isinstance(n, (ast.FunctionDef, ast.AsyncFunctionDef, ast.ClassDef)):
      continue
    stack.extend(ast.iter_child_nodes(n))


def _root_name(node):
  while isinstance(node, (ast.Subscript, ast.Attribute, ast.Call)):
    node = node.func if isinstance(node, ast.Call) else node.value
  return node.id if isinstance(node, ast.Name) else None


def writers_of(tree, name):
  """Functions that (syntactically) mutate or rebind the module-level `name`,
  directly or through a local alias obtained from it (x = NAME.setdefault(..))."""
  res = {}
  for q, fn in _functions(tree):
    aliases = {name}
    hits = []
    nodes = sorted([n for n in _own_nodes(fn) if hasattr(n, 'lineno')],
                   key=lambda n: (n.lineno, n.col_offset))
    declared_global = any(isinstance(n, ast.Global) and name in n.names for n in nodes)
    for n in nodes:
      if isinstance(n, ast.Assign):
        if isinstance(n.value, (ast.Call, ast.Subscript)) and \
            _root_name(n.value) in aliases and len(n.targets) == 1 and \
            isinstance(n.targets[0], ast.Name):
          f = n.value.func if isinstance(n.value, ast.Call) else None
          if f is None or (isinstance(f, ast.Attribute) and f.attr in ('setdefault', 'get')):
            aliases.add(n.targets[0].id)
            if f is not None and f.attr == 'setdefault':
              hits.append(n.lineno)
        for t in n.targets:
          if isinstance(t, (ast.Subscript, ast.Attribute)) and _root_name(t) in aliases:
            hits.append(n.lineno)
          if isinstance(t, ast.Name) and t.id == name and declared_global:
            hits.append(n.lineno)
      elif isinstance(n, (ast.AugAssign, ast.AnnAssign)):
        t = n.target
        if isinstance(t, (ast.Subscript, ast.Attribute)) and _root_name(t) in aliases:
          hits.append(n.lineno)
        if isinstance(t, ast.Name) and t.id == name and declared_global:
          hits.append(n.lineno)
        if isinstance(n, ast.AnnAssign) and n.value is not None and \
            isinstance(n.value, ast.Call) and _root_name(n.value) in aliases and \
            isinstance(n.target, ast.Name):
          f = n.value.func
          if isinstance(f, ast.Attribute) and f.attr in ('setdefault', 'get'):
            aliases.add(n.target.id)
            if f.attr == 'setdefault':
              hits.append(n.lineno)
      elif isinstance(n, ast.Delete):
        for t in n.targets:
          if _root_name(t) in aliases:
            hits.append(n.lineno)
      elif isinstance(n, ast.Call) and isinstance(n.func, ast.Attribute) and \
          n.func.attr in MUTATORS and _root_name(n.func.value) in aliases:
        hits.append(n.lineno)
    if hits:
      res[q] = sorted(set(hits))
  return res


def _fn(tree, qual):
  for q, fn in _functions(tree):
    if q == qual:
      return fn
  return None


def _default_of(fn, pname):
  a = fn.args
  names = [x.arg for x in a.args]
  d = dict(zip(names[len(names) - len(a.defaults):], a.defaults))
  for kw, dv in zip(a.kwonlyargs, a.kw_defaults):
    d[kw.arg] = dv
  v = d.get(pname)
  return v.value if isinstance(v, ast.Constant) else ('<missing>' if v is None else '<expr>')


def _first_stmt(fn):
  body = fn.body
  if body and isinstance(body[0], ast.Expr) and isinstance(body[0].value, ast.Constant):
    body = body[1:]
  return body[0] if body else None


def _is_lock_guard(stmt):
  if not isinstance(stmt, ast.If):
    return False
  t = stmt.test
  reads_flag = (isinstance(t, ast.Call) and isinstance(t.func, ast.Name) and
                t.func.id == 'config_is_locked' and not t.args) or \
      (isinstance(t, ast.Name) and t.id == '_CONFIG_IS_LOCKED')
  return (reads_flag
          and stmt.body and isinstance(stmt.body[-1], ast.Raise) and
          all(isinstance(b, (ast.Assign, ast.Raise)) for b in stmt.body))


def _module_stores(tree):
  """Module-level names bound to mutable containers / flags / maps."""
  out = {}
  for n in tree.body:
    tgt, val = None, None
    if isinstance(n, ast.Assign) and len(n.targets) == 1 and isinstance(n.targets[0], ast.Name):
      tgt, val = n.targets[0].id, n.value
    elif isinstance(n, ast.AnnAssign) and isinstance(n.target, ast.Name) and n.value is not None:
      tgt, val = n.target.id, n.value
    if tgt is None or not tgt.startswith('_') or tgt.startswith('__'):
      continue
    kind = None
    if isinstance(val, (ast.Dict, ast.List, ast.Set)):
      kind = 'container'
    elif isinstance(val, ast.Constant) and isinstance(val.value, bool):
      kind = 'flag'
    elif isinstance(val, ast.Call):
      f = val.func
      fname = f.attr if isinstance(f, ast.Attribute) else getattr(f, 'id', '')
      if fname in ('set', 'dict', 'list', 'SelectorMap', 'deque', 'defaultdict',
                   'OrderedDict', '_ScopeManager'):
        kind = 'container'
      elif fname in ('Lock', 'RLock'):
        kind = 'lock'
    if kind:
      out[tgt] = kind
  return out


def _with_lock_ranges(fn, lockname):
  rs = []
  for n in ast.walk(fn):
    if isinstance(n, ast.With):
      for it in n.items:
        if isinstance(it.context_expr, ast.Name) and it.context_expr.id == lockname:
          rs.append((n.lineno, n.end_lineno))
  return rs


def _calls_in(fn):
  names = set()
  for n in ast.walk(fn):
    if isinstance(n, ast.Call):
      if isinstance(n.func, ast.Name):
        names.add(n.func.id)
  return names


# -----------------------------------------------------------------------------

def run(repo, pid):
  cfg = repo.tree['config.py']
  res = []

  def ob(name, ok, detail=''):
    res.append((f'{pid}/ast::{name}', bool(ok), detail))

  if pid in ('C11', 'C12', 'C16'):
    allowed = {'bind_parameter', 'clear_config'}
    for store in ('_CONFIG', '_CONFIG_PROVENANCE'):
      w = writers_of(cfg, store)
      extra = {q: l for q, l in w.items() if q not in allowed}
      ob(f'config.py/write_sites/{store}/only_bind_parameter_and_clear_config',
         not extra, f'writers: {w}')
  if pid in ('C12', 'C11'):
    for q in ('bind_parameter', '_make_configurable'):
      fn = _fn(cfg, q)
      ob(f'config.py::{q}/lock_tested_before_any_write',
         fn is not None and _is_lock_guard(_first_stmt(fn)),
         'first statement must be `if config_is_locked(): raise ...`')
    w = writers_of(cfg, '_CONFIG_IS_LOCKED')
    ob('config.py/write_sites/_CONFIG_IS_LOCKED/only__set_config_is_locked',
       set(w) <= {'_set_config_is_locked'}, f'writers: {w}')
    callers = [q for q, fn in _functions(cfg) if '_set_config_is_locked' in _calls_in(fn)
               and q != '_set_config_is_locked']
    ob('config.py/callers_of__set_config_is_locked',
       set(callers) <= {'clear_config', 'unlock_config', 'finalize'}, f'callers: {callers}')
  if pid == 'C14':
    want = {'parse_config': {'skip_unknown': False},
            'parse_config_file': {'skip_unknown': False, 'print_includes_and_imports': False},
            'parse_config_files_and_bindings': {'finalize_config': True,
                                                'skip_unknown': False}}
    for q, ds in want.items():
      fn = _fn(cfg, q)
      for p, v in ds.items():
        got = _default_of(fn, p) if fn else '<no function>'
        ob(f'config.py::{q}/default/{p}={v}', got is v or got == v and type(got) is type(v),
           f'found {got!r}')
    # skip_unknown is handed on unchanged at every nested parse
    for q in ('parse_config', 'parse_config_file', 'parse_config_files_and_bindings'):
      fn = _fn(cfg, q)
      bad = []
      reassigned = False
      for n in ast.walk(fn) if fn else []:
        if isinstance(n, ast.Call) and isinstance(n.func, ast.Name) and \
            n.func.id in ('parse_config', 'parse_config_file'):
          passed = [a for a in n.args[1:2]] + [k.value for k in n.keywords
                                               if k.arg == 'skip_unknown']
          if not passed or not all(isinstance(a, ast.Name) and a.id == 'skip_unknown'
                                   for a in passed):
            bad.append(n.lineno)
      ob(f'config.py::{q}/skip_unknown_passed_through', fn is not None and not bad,
         f'nested parse calls not forwarding skip_unknown at lines {bad}')
  if pid == 'C17':
    fn = _fn(cfg, '_make_gin_wrapper.gin_wrapper')
    ok, det = False, 'no try around the call of the wrapped function'
    outer = _fn(cfg, '_make_gin_wrapper')
    wrapped = outer.args.args[0].arg if outer and outer.args.args else 'fn'

    def _calls_wrapped(stmts):
      return any(isinstance(m, ast.Call) and isinstance(m.func, ast.Name) and m.func.id == wrapped
                 for s in stmts for m in ast.walk(s))
    for n in ast.walk(fn) if fn else []:
      if isinstance(n, ast.Try) and _calls_wrapped(n.body):
        hs = [h.type.id if isinstance(h.type, ast.Name) else None for h in n.handlers]
        ok = hs == ['Exception']
        det = f'handlers: {hs}'
    ob('config.py::gin_wrapper/handler_is_exactly_except_Exception', ok, det)
    ut = repo.tree['utils.py']
    twl = _fn(ut, 'try_with_location')
    hs = []
    for n in ast.walk(twl) if twl else []:
      if isinstance(n, ast.ExceptHandler):
        hs.append(n.type.id if isinstance(n.type, ast.Name) else None)
    ob('utils.py::try_with_location/handler_is_exactly_except_Exception',
       hs == ['Exception'], f'handlers: {hs}')
  if pid == 'C18':
    lock = '_OPERATIVE_CONFIG_LOCK'
    bad = []
    holders = []
    for q, fn in _functions(cfg):
      rs = _with_lock_ranges(fn, lock)
      if rs:
        holders.append((q, fn, rs))
      for n in _own_nodes(fn):
        if isinstance(n, ast.Name) and n.id == '_OPERATIVE_CONFIG':
          if not any(a <= n.lineno <= b for a, b in rs):
            bad.append((q, n.lineno))
    ob('config.py/_OPERATIVE_CONFIG/every_access_under_its_lock', not bad,
       f'unguarded accesses: {bad}')
    # nothing reachable from inside a critical section takes the lock again
    fns = dict(_functions(cfg))
    takers = {q.split('.')[-1] for q, fn, rs in holders}
    reent = []
    for q, fn, rs in holders:
      inside = set()
      for n in ast.walk(fn):
        if isinstance(n, ast.Call) and isinstance(n.func, ast.Name) and \
            any(a <= n.lineno <= b for a, b in rs):
          inside.add(n.func.id)
      seen, work = set(), list(inside)
      while work:
        c = work.pop()
        if c in seen:
          continue
        seen.add(c)
        if c in takers:
          reent.append((q, c))
        if c in fns:
          work.extend(_calls_in(fns[c]))
    ob('config.py/_OPERATIVE_CONFIG_LOCK/not_reacquired_inside_critical_section',
       not reent, f'call chains re-entering: {reent}')
    w = writers_of(cfg, '_SINGLETONS')
    ob('config.py/write_sites/_SINGLETONS/only_singleton_value_and_clear_config',
       set(w) <= {'singleton_value', 'clear_config'}, f'writers: {w}')
  if pid == 'C20':
    stores = _module_stores(cfg)
    cc = _fn(cfg, 'clear_config')
    reset = set()
    for n in ast.walk(cc) if cc else []:
      if isinstance(n, ast.Call) and isinstance(n.func, ast.Attribute) and \
          n.func.attr == 'clear' and isinstance(n.func.value, ast.Name):
        reset.add(n.func.value.id)
      if isinstance(n, ast.Call) and isinstance(n.func, ast.Name) and \
          n.func.id == '_set_config_is_locked':
        reset.add('_CONFIG_IS_LOCKED')
    lifetime = {'_REGISTRY', '_INVERSE_REGISTRY', '_RENAMED_SELECTORS', '_FINALIZE_HOOKS',
                '_FILE_READERS', '_LOCATION_PREFIXES', '_ARG_SPEC_CACHE',
                '_INTERACTIVE_MODE', '_PARSE_CONTEXTS', '_SCOPE_MANAGER',
                '_OPERATIVE_CONFIG_LOCK', '_SINGLETONS_LOCK'}
    unaccounted = sorted(s for s in stores if s not in reset and s not in lifetime)
    ob('config.py/store_inventory/every_mutable_store_is_reset_or_registration_lifetime',
       not unaccounted, f'stores neither reset by clear_config nor registration-lifetime: '
       f'{unaccounted}; all stores: {sorted(stores)}')
    must_reset = {'_CONFIG', '_CONFIG_PROVENANCE', '_SINGLETONS', '_IMPORTS',
                  '_OPERATIVE_CONFIG', '_CONFIG_IS_LOCKED', '_CONSTANTS'}
    ob('config.py::clear_config/resets_all_configuration_stores',
       must_reset <= reset, f'not reset: {sorted(must_reset - reset)}')
  if pid == 'C09':
    cls = None
    for n in cfg.body:
      if isinstance(n, ast.ClassDef) and n.name == '_ScopeManager':
        cls = n
    bases = [ast.unparse(b) for b in cls.bases] if cls else []
    ob('config.py::_ScopeManager/is_a_threading_local', 'threading.local' in bases,
       f'bases: {bases}')
    inst = any(isinstance(n, ast.Assign) and isinstance(n.targets[0], ast.Name) and
               n.targets[0].id == '_SCOPE_MANAGER' and isinstance(n.value, ast.Call) and
               getattr(n.value.func, 'id', '') == '_ScopeManager' for n in cfg.body)
    ob('config.py/_SCOPE_MANAGER/is_the_thread_local_instance', inst, '')
    # the scope stack is stored only in instance attributes of that object
    bad = []
    for q, fn in _functions(cfg):
      for n in _own_nodes(fn):
        if isinstance(n, ast.Attribute) and n.attr == '_active_scopes':
          if not (q.startswith('_ScopeManager.') and isinstance(n.value, ast.Name)
                  and n.value.id == 'self'):
            bad.append((q, n.lineno))
    ob('config.py/_active_scopes/touched_only_by__ScopeManager_methods_on_self', not bad,
       f'other accesses: {bad}')
    class_attrs = [t.id for n in (cls.body if cls else []) if isinstance(n, ast.Assign)
                   for t in n.targets if isinstance(t, ast.Name)]
    ob('config.py::_ScopeManager/no_class_level_shared_state', not class_attrs,
       f'class attributes: {class_attrs}')
    w = writers_of(cfg, '_SCOPE_MANAGER')
    ob('config.py/write_sites/_SCOPE_MANAGER/never_rebound', not w, f'{w}')
  if pid in ('C08', 'C20', 'C05'):
    # the representation of a SelectorMap is private to its own methods (class invariant)
    bad = []
    for fname in ('config.py', 'config_parser.py', 'utils.py', 'resource_reader.py'):
      for n in ast.walk(repo.tree[fname]):
        if isinstance(n, ast.Attribute) and n.attr in ('_selector_tree', '_selector_map'):
          bad.append((fname, n.lineno))
    sm = repo.tree['selector_map.py']
    for q, fn in _functions(sm):
      for n in _own_nodes(fn):
        if isinstance(n, ast.Attribute) and n.attr in ('_selector_tree', '_selector_map'):
          # inside the class's own methods, on `self` or on another local instance (copy())
          ok = q.startswith('SelectorMap.') and isinstance(n.value, ast.Name)
          if not ok:
            bad.append((q, n.lineno))
    ob('selector_map.py/SelectorMap/representation_private_to_its_methods', not bad,
       f'other accesses: {bad}')
  if pid == 'C13':
    fn = _fn(cfg, 'register.perform_decoration')
    ok = False
    if fn:
      last = fn.body[-1]
      p = fn.args.args[0].arg
      reb = any(isinstance(n, ast.Assign) and any(isinstance(t, ast.Name) and t.id == p
                                                  for t in n.targets) for n in ast.walk(fn))
      ok = isinstance(last, ast.Return) and isinstance(last.value, ast.Name) and \
          last.value.id == p and not reb
    ob('config.py::register.perform_decoration/returns_its_argument_unchanged', ok, '')
  return res
